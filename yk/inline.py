"""Attribution of code in *new* helper functions to their callers (fact-base transformation).

Every rule instance of the checks was confirmed against a function that exists on the pinned tree; those functions are
listed in baseline_functions.json.  A function of yakushima:: that is NOT in that list has no rule instance of its own: it
is the product of a later edit - typically a helper extracted from one or several of the baseline functions.  So that such
an extraction is judged exactly like the code it replaced, the body of a new helper is spliced into the control-flow graph
of each of its callers (parameters bound to the arguments, `return e` turned into a definition of a result variable and a
jump to the continuation), bottom-up, and a helper whose every use was spliced is removed from the function table.  The
same is done for calls of a closure whose lambda-expression is new (not at a baseline position is unknowable, so: every
closure that is called directly in the function that defines it and is not handed to anybody else).

Nothing here decides a property; it only changes *where* the unchanged rules look.  Recursive helpers, helpers whose address
is taken, virtual calls and calls with default arguments are left alone (the helper then stays a function of its own and the
rules see it as such).
"""
import copy
import json
import os

HERE = os.path.dirname(os.path.dirname(os.path.abspath(__file__)))
BASELINE = os.path.join(HERE, 'baseline_functions.json')
CALLS = ('CallExpr', 'CXXMemberCallExpr', 'CXXOperatorCallExpr')
MAX_ROUNDS = 40


def load_baseline():
    with open(BASELINE) as fh:
        d = json.load(fh)
    return set(d['functions'])


def _strip(elems, n):
    """node behind implicit wrappers"""
    while n is not None and (n['k'] in ('ImplicitCastExpr', 'MaterializeTemporaryExpr', 'ExprWithCleanups', 'ParenExpr',
                                        'CXXBindTemporaryExpr', 'ConstantExpr') or
                             (n['k'] == 'CXXConstructExpr' and len(n.get('args', [])) == 1 and n.get('copy_like', True)
                              and _same_type_copy(elems, n))):
        c = n.get('ch', []) or n.get('args', [])
        if not c:
            return n
        n = elems[c[0]] if isinstance(c[0], int) else c[0]
    return n


def _same_type_copy(elems, n):
    a = n['args'][0]
    a = elems[a] if isinstance(a, int) else a
    ta = (a.get('ty') or '').replace('const ', '').replace('&', '').strip()
    tn = (n.get('ty') or n.get('ctor') or '').replace('const ', '').replace('&', '').strip()
    return bool(ta) and (ta == tn or ta == (n.get('ctor') or ''))


def _ids_in(n):
    out = []
    for key in ('ch', 'args'):
        for c in n.get(key, []):
            if isinstance(c, int):
                out.append(c)
    if isinstance(n.get('recv'), int):
        out.append(n['recv'])
    if n['k'] == 'DeclStmt':
        for v in n.get('vars', []):
            if isinstance(v.get('init'), int):
                out.append(v['init'])
    return out


def _remap_node(n, off):
    """deep copy of a callee node with element ids shifted by off"""
    m = copy.deepcopy(n)

    def fix(x):
        for key in ('ch', 'args'):
            if key in x:
                x[key] = [(c + off) if isinstance(c, int) else fix(c) for c in x[key]]
        if 'recv' in x:
            x['recv'] = (x['recv'] + off) if isinstance(x['recv'], int) else fix(x['recv'])
        if x.get('k') == 'DeclStmt':
            for v in x.get('vars', []):
                if 'init' in v:
                    v['init'] = (v['init'] + off) if isinstance(v['init'], int) else fix(v['init'])
        return x
    return fix(m)


def _all_dicts(n):
    yield n
    for key in ('ch', 'args'):
        for c in n.get(key, []):
            if isinstance(c, dict):
                yield from _all_dicts(c)
    if isinstance(n.get('recv'), dict):
        yield from _all_dicts(n['recv'])
    if n.get('k') == 'DeclStmt':
        for v in n.get('vars', []):
            if isinstance(v.get('init'), dict):
                yield from _all_dicts(v['init'])


class Inliner:
    def __init__(self, functions_raw, baseline):
        self.fr = functions_raw          # fid -> raw dict (mutated)
        self.baseline = baseline
        self.counter = 0
        self.spliced = {}                # callee fid -> number of splices
        self.log = []

    # -- which callees -------------------------------------------------------
    def new_named(self):
        out = set()
        for fid, r in self.fr.items():
            q = r.get('qname') or ''
            if r.get('lambda') or not q.startswith('yakushima::') or not r.get('blocks'):
                continue
            if q in self.baseline:
                continue
            out.add(fid)
        return out

    def direct_closures(self):
        """lambda operator() functions whose closure object is only ever called (never passed on) in its function"""
        out = set()
        lam_of_var = {}
        for fid, r in self.fr.items():
            elems = r.get('elems', {})
            for k, n in elems.items():
                pass
        return out

    def callees_of(self, r, among):
        s = set()
        for n in r.get('elems', {}).values():
            for d in _all_dicts(n):
                if d.get('k') in CALLS and d.get('callee') in among:
                    s.add(d['callee'])
        return s

    def address_taken(self, among):
        """functions referenced other than as the callee of a direct call"""
        taken = set()
        for fid, r in self.fr.items():
            elems = r.get('elems', {})
            callee_refs = set()
            for n in elems.values():
                for d in _all_dicts(n):
                    if d.get('k') in CALLS:
                        # the callee expression is the first child
                        c = d.get('ch', [])
                        if c:
                            c0 = elems.get(str(c[0])) if isinstance(c[0], int) else c[0]
                            c0 = _strip_raw(elems, c0)
                            if c0 is not None:
                                callee_refs.add(id(c0))
            for n in elems.values():
                for d in _all_dicts(n):
                    if d.get('k') == 'DeclRefExpr' and d.get('dk') == 'func' and d.get('id') in among and \
                            id(d) not in callee_refs:
                        taken.add(d['id'])
        return taken

    # -- the splice ------------------------------------------------------------
    def splice_all(self, targets):
        """targets: set of callee fids to splice into every caller (bottom-up among themselves)."""
        targets = set(targets)
        if not targets:
            return
        # recursion: drop members of cycles
        graph = {t: self.callees_of(self.fr[t], targets) for t in targets}
        rec = set()
        for t in targets:
            seen = set()
            st = list(graph[t])
            while st:
                x = st.pop()
                if x == t:
                    rec.add(t)
                    break
                if x in seen:
                    continue
                seen.add(x)
                st.extend(graph.get(x, ()))
        targets -= rec
        targets -= self.address_taken(targets)
        # bottom-up order
        order = []
        done = set()

        def visit(t):
            if t in done:
                return
            done.add(t)
            for c in graph.get(t, ()):
                if c in targets:
                    visit(c)
            order.append(t)
        for t in sorted(targets):
            visit(t)
        for t in order:
            self._splice_into(self.fr[t], targets)
        for fid in sorted(self.fr):
            if fid in targets:
                continue
            self._splice_into(self.fr[fid], targets)
        # helpers that are not called any more disappear from the function table
        still = set()
        for fid, r in self.fr.items():
            if fid in targets:
                continue
            still |= self.callees_of(r, targets)
        for t in targets:
            if t not in still and self.spliced.get(t) and self.fr[t].get('lambda'):
                self._drop_closure(t)
        for t in targets:
            if t not in still and self.spliced.get(t):
                self.log.append('spliced %s into %d call site(s); removed from the function table' % (
                    self.fr[t].get('qname'), self.spliced[t]))
                del self.fr[t]

    def _drop_closure(self, lam_fid):
        """every call of the closure was spliced: its creation (the lambda-expression and the closure variable) is dead"""
        for fid, r in self.fr.items():
            elems = r.get('elems', {})
            for n in elems.values():
                if n.get('k') == 'LambdaExpr' and n.get('lambda') == lam_fid:
                    loc = n.get('loc')
                    # the capture initialisers are evaluated for the closure only
                    dead = set()
                    st = [c for c in n.get('ch', []) if isinstance(c, int)]
                    while st:
                        c = st.pop()
                        if c in dead:
                            continue
                        dead.add(c)
                        st.extend(_ids_in(elems.get(str(c), {'k': ''})))
                    for blk in r.get('blocks', {}).values():
                        if dead & set(blk.get('elems', [])):
                            blk['elems'] = [e for e in blk['elems'] if e not in dead]
                    n.clear()
                    n.update({'k': 'NullStmt', 'loc': loc, 'inl': lam_fid})
            for n in elems.values():
                if n.get('k') == 'DeclStmt':
                    for v in n.get('vars', []):
                        ini = v.get('init')
                        hops = 0
                        x = elems.get(str(ini)) if isinstance(ini, int) else ini
                        while x is not None and x.get('k') != 'NullStmt' and x.get('ch') and hops < 6:
                            c = x['ch'][0]
                            x = elems.get(str(c)) if isinstance(c, int) else c
                            hops += 1
                        if x is not None and x.get('k') == 'NullStmt' and x.get('inl') == lam_fid:
                            v.pop('init', None)
                            v['type'] = 'int'
                            v['dead_closure'] = True

    def _splice_into(self, r, targets):
        if not r.get('blocks'):
            return
        for _ in range(MAX_ROUNDS):
            site = self._find_site(r, targets)
            if site is None:
                return
            if not self._splice(r, *site):
                # mark as not inlinable at this site
                site[2]['no_inline'] = True

    def _find_site(self, r, targets):
        elems = r['elems']
        for bid in sorted(r['blocks'], key=int):
            blk = r['blocks'][bid]
            for i, e in enumerate(blk.get('elems', [])):
                n = elems.get(str(e))
                if n is None or n.get('k') not in CALLS or n.get('no_inline'):
                    continue
                if n.get('callee') in targets and not n.get('virtual'):
                    return (bid, i, n)
        return None

    def _splice(self, r, bid, idx, call):
        g = self.fr.get(call['callee'])
        if g is None or not g.get('blocks'):
            return False
        elems = r['elems']
        is_op = call['k'] == 'CXXOperatorCallExpr'
        args = list(call.get('args', []))
        recv = None
        if call['k'] == 'CXXMemberCallExpr':
            recv = call.get('recv')
        elif is_op and (call.get('mcls') or g.get('lambda')):
            recv = args[0] if args else None
            args = args[1:]
        params = g.get('params', [])
        if len(args) != len(params):
            return False
        if any(not isinstance(a, int) for a in args) or (recv is not None and not isinstance(recv, int)):
            return False
        self.counter += 1
        tag = '#inl%d' % self.counter
        off = max([int(k) for k in elems] + [0]) + 1
        boff = max(int(k) for k in r['blocks']) + 1
        # ---- parameter binding
        alias = {}        # callee var id -> (id, name, dk, ty)
        binds = []        # synthetic DeclStmt nodes
        for p, a in zip(params, args):
            an = _strip(_int_elems(elems), elems[str(a)])
            pty = p.get('type') or ''
            by_ref = '&' in pty or pty.startswith('const ') or pty.rstrip().endswith('const')
            is_ref = '&' in pty
            # a reference parameter - or a by-value parameter the helper never assigns - bound to a member of an object
            # of the caller: the parameter is a name for that member
            opath = _object_path(elems, elems[str(a)]) if (is_ref or not _written_in(g, p['id'])) else None
            unwritten = None
            if an is not None and an.get('k') == 'DeclRefExpr' and an.get('dk') in ('var', 'parm', 'binding') and \
                    not by_ref:
                # a by-value parameter the helper never assigns, bound to a variable the helper cannot see: a name for it
                # (if the caller's variable changed while the helper runs the copy would matter; a helper cannot do that
                # to a local of its caller except through a reference it was given)
                unwritten = not _written_in(g, p['id'])
            if an is not None and an.get('k') == 'DeclRefExpr' and an.get('dk') in ('var', 'parm', 'binding') and \
                    (by_ref or unwritten):
                alias[p['id']] = an
            elif opath is not None and opath.get('k') in ('MemberExpr', 'UnaryOperator'):
                # a reference parameter bound to a member of an object: the parameter is that member
                alias[p['id']] = {'#path': opath}
            else:
                vid = p['id'] + tag
                vty = pty
                if not by_ref and not _written_in(g, p['id']):
                    vty = pty.rstrip() + ' const'      # never assigned in the helper: a name for the argument
                alias[p['id']] = {'k': 'DeclRefExpr', 'dk': 'var', 'id': vid, 'name': p.get('name', 'p') + tag,
                                  'ty': pty.replace('&', '').strip()}
                binds.append({'k': 'DeclStmt', 'loc': call.get('loc'), 'inl': call['callee'],
                              'vars': [{'id': vid, 'name': p.get('name', 'p') + tag, 'type': vty, 'init': a}]})
        this_repl = None
        if recv is not None and not g.get('lambda'):
            rn = _strip(_int_elems(elems), elems[str(recv)])
            if rn is None or rn.get('k') != 'CXXThisExpr':
                vid = '__this' + tag
                rty = (elems[str(recv)].get('ty') or '')
                this_repl = {'k': 'DeclRefExpr', 'dk': 'var', 'id': vid, 'name': vid, 'ty': rty}
                binds.append({'k': 'DeclStmt', 'loc': call.get('loc'), 'inl': call['callee'],
                              'vars': [{'id': vid, 'name': vid, 'type': rty, 'init': recv}]})
        # ---- result variable
        ret_ty = g.get('ret') or call.get('ty') or 'void'
        has_val = ret_ty.strip() != 'void'
        ret_id = '__ret' + tag
        # ---- copy the callee (its locals get names of their own per splice)
        gel = g['elems']
        locals_ = set()
        for n in gel.values():
            for d in _all_dicts(n):
                if d.get('k') == 'DeclStmt':
                    for v in d.get('vars', []):
                        if v.get('id'):
                            locals_.add(v['id'])
                        for b in v.get('bindings', []):
                            locals_.add(b['id'])
        site_loc = call.get('call_loc') or call.get('loc')
        for k, n in gel.items():
            m = _remap_node(n, off)
            for d in _all_dicts(m):
                # a location of its own per splice (sites are keyed by location), and the place the code now runs at
                lp = (d.get('loc') or '').split(':')
                if len(lp) >= 2:
                    lp[1] = lp[1] + '~' + str(self.counter)
                    d['loc'] = ':'.join(lp)
                    d['call_loc'] = site_loc
                if d.get('k') == 'DeclStmt':
                    for v in d.get('vars', []):
                        if v.get('id') in locals_:
                            v['id'] = v['id'] + tag
                        for b in v.get('bindings', []):
                            if b['id'] in locals_:
                                b['id'] = b['id'] + tag
                if d.get('k') == 'DeclRefExpr' and d.get('id') in locals_:
                    d['id'] = d['id'] + tag
                    continue
                if d.get('k') == 'DeclRefExpr' and d.get('id') in alias and '#path' in alias[d['id']]:
                    keep_loc = d.get('loc')
                    pth = copy.deepcopy(alias[d['id']]['#path'])
                    d.clear()
                    d.update(pth)
                    d['loc'] = keep_loc
                    continue
                if d.get('k') == 'DeclRefExpr' and d.get('id') in alias:
                    a = alias[d['id']]
                    d['id'] = a['id']
                    d['name'] = a.get('name', d.get('name'))
                    d['dk'] = a.get('dk', 'var')
                if d.get('k') == 'CXXThisExpr' and this_repl is not None:
                    keep_loc = d.get('loc')
                    d.clear()
                    d.update(this_repl)
                    d['loc'] = keep_loc
            if m.get('k') == 'ReturnStmt':
                c = m.get('ch', [])
                if has_val and c:
                    m = {'k': 'DeclStmt', 'loc': m.get('loc'), 'inl': call['callee'], 'ret_of': call['callee'],
                         'vars': [{'id': ret_id, 'name': ret_id, 'type': ret_ty, 'init': c[0]}]}
                else:
                    m = {'k': 'NullStmt', 'loc': m.get('loc'), 'inl': call['callee'], 'ret_of': call['callee']}
            elems[str(int(k) + off)] = m
        cont = str(boff)                    # continuation block id
        gentry, gexit = g['entry'], g['exit']
        bmap = {}
        for gb in g['blocks']:
            bmap[int(gb)] = boff + 1 + int(gb)
        for gb, blk in g['blocks'].items():
            nb = {'elems': [e + off for e in blk.get('elems', [])],
                  'succ': [(None if s is None else (int(cont) if s == gexit else bmap[s])) for s in blk.get('succ', [])]}
            if blk.get('term') is not None:
                t = copy.deepcopy(blk['term'])
                if isinstance(t.get('cond'), int):
                    t['cond'] = t['cond'] + off
                nb['term'] = t
            if blk.get('label'):
                nb['label'] = blk['label'] + tag
            if int(gb) == gexit:
                continue
            r['blocks'][str(bmap[int(gb)])] = nb
        # ---- split the caller's block
        blk = r['blocks'][bid]
        pre = blk['elems'][:idx]
        post = blk['elems'][idx:]          # starts with the call element itself
        nid = off + max([int(k) for k in gel] + [0]) + 1
        for bnode in binds:
            elems[str(nid)] = bnode
            pre.append(nid)
            nid += 1
        contblk = {'elems': post, 'succ': blk.get('succ', [])}
        if blk.get('term') is not None:
            contblk['term'] = blk['term']
        r['blocks'][cont] = contblk
        blk['elems'] = pre
        blk['succ'] = [bmap[gentry]] if gentry != gexit else [int(cont)]
        blk.pop('term', None)
        # the call node becomes a use of the result
        # (the argument expressions stay attached: they were evaluated for this call)
        keep = {'loc': call.get('loc'), 'ty': call.get('ty'),
                'args': [a_ for a_ in (call.get('args') or []) if isinstance(a_, int)]}
        inl_of = call['callee']
        call.clear()
        if has_val:
            call.update({'k': 'DeclRefExpr', 'dk': 'var', 'id': ret_id, 'name': ret_id, 'inl': inl_of})
        else:
            call.update({'k': 'NullStmt', 'inl': inl_of})
        call.update(keep)
        self.spliced[inl_of] = self.spliced.get(inl_of, 0) + 1
        if has_val:
            self._thread_returns(r, ret_id, cont, [str(b) for b in bmap.values()])
        return True

    # a return of a constant followed, at the call site, by nothing but tests of the returned value: the return edge goes
    # straight to the arm the tests select (otherwise every rule would have to correlate the result variable with the path
    # that produced it)
    def _thread_returns(self, r, ret_id, cont, callee_blocks):
        elems = r['elems']
        blocks = r['blocks']

        def const_of(nid):
            n = elems.get(str(nid)) if isinstance(nid, int) else nid
            hops = 0
            while n is not None and hops < 8:
                if 'cv' in n and n.get('k') != 'DeclRefExpr':
                    return int(n['cv'])
                if n.get('k') == 'DeclRefExpr' and n.get('dk') == 'enum' and 'cv' in n:
                    return int(n['cv'])
                if n.get('k') in ('IntegerLiteral', 'CXXBoolLiteralExpr') and 'val' in n:
                    try:
                        return int(n['val'])
                    except (TypeError, ValueError):
                        return {'true': 1, 'false': 0}.get(str(n['val']))
                if n.get('k') in ('ImplicitCastExpr', 'ParenExpr', 'ConstantExpr', 'CXXFunctionalCastExpr',
                                  'CStyleCastExpr', 'CXXStaticCastExpr', 'MaterializeTemporaryExpr', 'InitListExpr',
                                  'ExprWithCleanups') and len(n.get('ch', [])) == 1:
                    c = n['ch'][0]
                    n = elems.get(str(c)) if isinstance(c, int) else c
                    hops += 1
                    continue
                return None
            return None

        def is_ret_ref(n):
            n = _strip_raw(elems, n)
            return n is not None and n.get('k') == 'DeclRefExpr' and n.get('id') == ret_id

        def evaluate(nid, val):
            """value of the pure test expression nid when the result variable holds val (None: not a pure test)"""
            n = elems.get(str(nid)) if isinstance(nid, int) else nid
            n = _strip_raw(elems, n)
            if n is None:
                return None
            if is_ret_ref(n):
                return val
            k = n.get('k')
            if k == 'UnaryOperator' and n.get('op') == '!':
                v = evaluate(n['ch'][0], val)
                return None if v is None else int(not v)
            if k == 'BinaryOperator' and n.get('op') in ('==', '!='):
                a, b = n['ch'][0], n['ch'][1]
                va = evaluate(a, val)
                vb = evaluate(b, val)
                if va is None:
                    va = const_of(a)
                if vb is None:
                    vb = const_of(b)
                if va is None or vb is None:
                    return None
                return int((va == vb) == (n['op'] == '=='))
            return None

        def pure_test_block(bid):
            blk = blocks.get(str(bid))
            if blk is None or not blk.get('term') or 'cond' not in blk['term'] or len(blk.get('succ', [])) != 2:
                return False
            if blk['term'].get('k') not in ('IfStmt',):
                return False
            for e in blk.get('elems', []):
                n = elems.get(str(e), {})
                if n.get('k') in ('DeclRefExpr', 'ImplicitCastExpr', 'ParenExpr', 'ConstantExpr'):
                    continue
                if n.get('k') == 'UnaryOperator' and n.get('op') == '!':
                    continue
                if n.get('k') == 'BinaryOperator' and n.get('op') in ('==', '!='):
                    continue
                return False
            return True

        for b in callee_blocks:
            blk = blocks.get(b)
            if blk is None or blk.get('succ') != [int(cont)] or not blk.get('elems'):
                continue
            last = elems.get(str(blk['elems'][-1]), {})
            if last.get('k') != 'DeclStmt' or not last.get('ret_of'):
                continue
            v = last['vars'][0]
            if v.get('id') != ret_id or 'init' not in v:
                continue
            val = const_of(v['init'])
            if val is None:
                continue
            tgt = int(cont)
            for _ in range(12):
                if not pure_test_block(tgt):
                    break
                res = evaluate(blocks[str(tgt)]['term']['cond'], val)
                if res is None:
                    break
                nxt = blocks[str(tgt)]['succ'][0 if res else 1]
                if nxt is None:
                    break
                tgt = nxt
            if tgt != int(cont):
                blk['succ'] = [tgt]


def _written_in(g, var_id):
    """is the variable assigned / incremented / address-taken anywhere in g?"""
    elems = g.get('elems', {})
    for n in elems.values():
        for d in _all_dicts(n):
            k = d.get('k')
            if k in ('BinaryOperator', 'CompoundAssignOperator') and (d.get('op') or '').endswith('=') and \
                    d.get('op') not in ('==', '!=', '<=', '>='):
                c = (d.get('ch') or [None])[0]
                c = elems.get(str(c)) if isinstance(c, int) else c
                c = _strip_raw(elems, c)
                if c is not None and c.get('k') == 'DeclRefExpr' and c.get('id') == var_id:
                    return True
            if k == 'UnaryOperator' and d.get('op') in ('++', '--', '&'):
                c = (d.get('ch') or [None])[0]
                c = elems.get(str(c)) if isinstance(c, int) else c
                c = _strip_raw(elems, c)
                if c is not None and c.get('k') == 'DeclRefExpr' and c.get('id') == var_id:
                    return True
    return False


def _int_elems(elems):
    class _V(dict):
        def __getitem__(s, k):
            return elems[str(k)]
    return _V()


def _strip_raw(elems, n):
    while n is not None and n.get('k') in ('ImplicitCastExpr', 'ParenExpr'):
        c = n.get('ch', [])
        if not c:
            return n
        n = elems.get(str(c[0])) if isinstance(c[0], int) else c[0]
    return n


def closures_called_in_place(functions_raw):
    """operator() of lambdas: every use of the closure variable in the defining function is a direct call.
    Returns {lambda fid: (qname of the defining function, name of the closure variable)}."""
    out = {}
    for fid, r in functions_raw.items():
        elems = r.get('elems', {})
        lam_vars = {}          # var id -> lambda fid
        for n in elems.values():
            if n.get('k') == 'DeclStmt':
                for v in n.get('vars', []):
                    ini = v.get('init')
                    ini = elems.get(str(ini)) if isinstance(ini, int) else ini
                    hops = 0
                    while ini is not None and ini.get('k') != 'LambdaExpr' and ini.get('ch') and hops < 6:
                        c = ini['ch'][0]
                        ini = elems.get(str(c)) if isinstance(c, int) else c
                        hops += 1
                    if ini is not None and ini.get('k') == 'LambdaExpr' and ini.get('lambda'):
                        lam_vars[v['id']] = ini['lambda']
                        lam_names = r.setdefault('_lam_names', {})
                        lam_names[v['id']] = v.get('name')
        if not lam_vars:
            continue
        called = {}
        for n in elems.values():
            for d in _all_dicts(n):
                if d.get('k') == 'CXXOperatorCallExpr' and d.get('callee') in lam_vars.values() and d.get('args'):
                    a0 = d['args'][0]
                    a0 = elems.get(str(a0)) if isinstance(a0, int) else a0
                    a0 = _strip_raw(elems, a0)
                    if a0 is not None and a0.get('k') == 'DeclRefExpr':
                        called.setdefault(a0.get('id'), set()).add(id(a0))
        uses = {}
        for n in elems.values():
            for d in _all_dicts(n):
                if d.get('k') == 'DeclRefExpr' and d.get('id') in lam_vars:
                    uses.setdefault(d['id'], set()).add(id(d))
        for v, lf in lam_vars.items():
            if uses.get(v) and uses.get(v) == called.get(v):
                out[lf] = (r.get('qname'), r.get('_lam_names', {}).get(v))
    return out


def desugar_bindings(functions_raw, known=None):
    """`auto& [a, b, c] = X;` with X a plain object path (a variable, a member of this) of tuple / pair type: every use of
    a binding is rewritten into std::get<i>(X), the form the rules know."""
    n_rw = 0
    known = known or {}
    for fid, r in functions_raw.items():
        elems = r.get('elems', {})
        if not elems:
            continue
        table = {}
        by_value = []
        for n in list(elems.values()):
            if n.get('k') != 'DeclStmt':
                continue
            for v in n.get('vars', []):
                if not v.get('bindings') or 'init' not in v:
                    continue
                ty = v.get('type') or ''
                if 'std::tuple<' not in ty and 'std::pair<' not in ty:
                    continue
                ini = v['init']
                ini = elems.get(str(ini)) if isinstance(ini, int) else ini
                path = _object_path(elems, ini) if '&' in ty else None     # a reference names the object itself
                if path is None and '&' not in ty and v.get('id'):
                    # `auto [a, b] = f();` - made into `auto t = f(); A a = std::get<0>(t); B b = std::get<1>(t);`
                    # unless the rules know this decomposition from the pinned tree
                    names = ','.join(b['name'] for b in v['bindings'])
                    if names in known.get(r.get('qname'), []):
                        continue
                    by_value.append((n, v))
                    continue
                if path is None:
                    continue
                for i, b in enumerate(v['bindings']):
                    table[b['id']] = (i, path)
        for (dn, v) in by_value:
            # position of the decomposition among the CFG elements
            did = [k for k, x in elems.items() if x is dn]
            pos = None
            for bid, blk in r['blocks'].items():
                for i, e in enumerate(blk.get('elems', [])):
                    if did and str(e) == did[0]:
                        pos = (bid, i)
            if pos is None:
                continue
            if not v.get('name'):
                v['name'] = '__tuple_' + v['id'].lstrip('@').replace(':', '_').replace('.', '_')
            if not (v.get('type') or '').startswith('const '):
                v['type'] = 'const ' + (v.get('type') or '')     # the hidden object has no name: nobody re-assigns it
            tys = {}
            for x in elems.values():
                for d in _all_dicts(x):
                    if d.get('k') == 'DeclRefExpr' and d.get('dk') == 'binding':
                        tys.setdefault(d.get('id'), d.get('ty'))
            nid = max(int(k) for k in elems) + 1
            ins = []
            for i, b in enumerate(v['bindings']):
                if b['id'] not in tys:
                    continue
                elems[str(nid)] = {'k': 'DeclRefExpr', 'dk': 'var', 'id': v['id'], 'name': v['name'],
                                   'ty': v.get('type'), 'loc': dn.get('loc')}
                elems[str(nid + 1)] = {'k': 'CallExpr', 'cq': 'std::get', 'cn': 'get', 'ty': tys[b['id']],
                                       'callee': 'std::get<%dUL>(structured binding %s)' % (i, b['name']),
                                       'args': [nid], 'ch': [nid], 'loc': dn.get('loc')}
                elems[str(nid + 2)] = {'k': 'DeclStmt', 'loc': dn.get('loc'),
                                       'vars': [{'id': b['id'], 'name': b['name'], 'type': tys[b['id']],
                                                 'init': nid + 1}]}
                ins += [nid, nid + 1, nid + 2]
                nid += 3
            blk = r['blocks'][pos[0]]
            blk['elems'] = blk['elems'][:pos[1] + 1] + ins + blk['elems'][pos[1] + 1:]
            ids = {b['id'] for b in v['bindings']}
            for x in elems.values():
                for d in _all_dicts(x):
                    if d.get('k') == 'DeclRefExpr' and d.get('dk') == 'binding' and d.get('id') in ids:
                        d['dk'] = 'var'
                        n_rw += 1
            v['bindings'] = []
        if not table:
            continue
        for n in elems.values():
            for d in _all_dicts(n):
                if d.get('k') == 'DeclRefExpr' and d.get('dk') == 'binding' and d.get('id') in table:
                    i, path = table[d['id']]
                    keep = {'loc': d.get('loc'), 'ty': d.get('ty')}
                    name = d.get('name')
                    d.clear()
                    pcopy = copy.deepcopy(path)
                    d.update({'k': 'CallExpr', 'cq': 'std::get', 'cn': 'get',
                              'callee': 'std::get<%dUL>(structured binding %s)' % (i, name),
                              'args': [pcopy], 'ch': [pcopy], 'binding': name})
                    d.update(keep)
                    n_rw += 1
    return n_rw


def _object_path(elems, n, depth=0):
    """inline copy of n if it is a side-effect free object path (variable / this / member chain), else None"""
    if n is None or depth > 8:
        return None
    k = n.get('k')
    if k in ('ImplicitCastExpr', 'ParenExpr', 'MaterializeTemporaryExpr', 'ExprWithCleanups', 'CXXConstructExpr',
             'CXXBindTemporaryExpr'):
        kids = n.get('ch') or n.get('args') or []
        if len(kids) != 1:
            return None
        c = kids[0]
        return _object_path(elems, elems.get(str(c)) if isinstance(c, int) else c, depth + 1)
    if k == 'DeclRefExpr' and n.get('dk') in ('var', 'parm'):
        return {kk: vv for kk, vv in n.items() if kk != 'ch'}
    if k == 'CXXThisExpr':
        return dict(n)
    if k == 'UnaryOperator' and n.get('op') == '*':
        c = (n.get('ch') or [None])[0]
        base = _object_path(elems, elems.get(str(c)) if isinstance(c, int) else c, depth + 1)
        if base is None or base.get('k') != 'DeclRefExpr':
            return None
        m = {kk: vv for kk, vv in n.items() if kk != 'ch'}
        m['ch'] = [{'k': 'ImplicitCastExpr', 'ck': 'LValueToRValue', 'ty': base.get('ty'), 'loc': base.get('loc'),
                    'ch': [base]}]
        return m
    if k == 'MemberExpr' and 'mfid' not in n:
        c = (n.get('ch') or [None])[0]
        base = _object_path(elems, elems.get(str(c)) if isinstance(c, int) else c, depth + 1)
        if base is None:
            return None
        m = {kk: vv for kk, vv in n.items() if kk != 'ch'}
        m['ch'] = [base]
        return m
    return None


def lower_switches(functions_raw):
    """`switch (x) { case A: ...; case B: ...; default: ... }` -> the chain of two-way tests x == A, x == B, ... the rules
    (and the explorer's branch refinement) understand; arms keep their blocks, fall-through edges are untouched."""
    n_sw = 0
    for fid, r in functions_raw.items():
        blocks = r.get('blocks') or {}
        elems = r.get('elems') or {}
        for bid in list(blocks):
            blk = blocks[bid]
            t = blk.get('term')
            if not t or t.get('k') != 'SwitchStmt' or not isinstance(t.get('cond'), int):
                continue
            succ = [x for x in blk.get('succ', [])]
            if any(x is None for x in succ):
                continue
            cases = [x for x in succ if blocks.get(str(x), {}).get('case')]
            others = [x for x in succ if not blocks.get(str(x), {}).get('case')]
            if not cases or len(others) != 1 or any(blocks[str(x)]['case'].get('range') or
                                                    'cv' not in blocks[str(x)]['case'] for x in cases):
                continue
            nid = max(int(k) for k in elems) + 1
            nb = max(int(k) for k in blocks) + 1
            cur = blk
            for i, cs in enumerate(cases):
                c = blocks[str(cs)]['case']
                if c.get('enum'):
                    kn = {'k': 'DeclRefExpr', 'dk': 'enum', 'id': c['enum'], 'name': c['enum'].split('::')[-1],
                          'cv': c['cv'], 'ty': c.get('ty'), 'loc': c.get('loc')}
                else:
                    kn = {'k': 'IntegerLiteral', 'val': c['cv'], 'ty': c.get('ty'), 'loc': c.get('loc')}
                elems[str(nid)] = {'k': 'BinaryOperator', 'op': '==', 'ty': 'bool', 'loc': c.get('loc'),
                                   'ch': [t['cond'], kn], 'lowered': 'case'}
                cur['elems'] = list(cur.get('elems', [])) + [nid]
                cur['term'] = {'k': 'IfStmt', 'cond': nid, 'loc': c.get('loc'), 'lowered': 'SwitchStmt'}
                if i + 1 < len(cases):
                    cur['succ'] = [cs, nb]
                    blocks[str(nb)] = {'elems': [], 'succ': []}
                    cur = blocks[str(nb)]
                    nb += 1
                else:
                    cur['succ'] = [cs, others[0]]
                nid += 1
            n_sw += 1
    return n_sw


ALGS = {'std::all_of': ('inc', 'false', 'true'), 'std::any_of': ('true', 'inc', 'false'),
        'std::none_of': ('false', 'inc', 'true'), 'std::for_each': None, 'std::find_if': ('found', 'inc', 'last')}


def lower_algorithms(functions_raw):
    """std::all_of / any_of / none_of / for_each(first, last, <lambda-expression>) -> a call of a synthetic helper that is
    the loop the algorithm stands for (bounded like a range-for, the predicate called once per element in order, early exit
    as specified); the helper is new code, so it is spliced into the caller like any other new helper, and the closure
    after it."""
    k = 0
    new = {}
    for fid, r in functions_raw.items():
        elems = r.get('elems') or {}
        for n in list(elems.values()):
            for d in _all_dicts(n):
                if d.get('k') != 'CallExpr' or d.get('cq') not in ALGS or len(d.get('args', [])) != 3:
                    continue
                if any(not isinstance(a, int) for a in d['args']):
                    continue
                x = elems.get(str(d['args'][2]))
                hops = 0
                while x is not None and x.get('k') != 'LambdaExpr' and hops < 6:
                    c = (x.get('ch') or x.get('args') or [None])[0]
                    x = elems.get(str(c)) if isinstance(c, int) else c
                    hops += 1
                if x is None or x.get('k') != 'LambdaExpr' or not x.get('lambda'):
                    continue
                lam = functions_raw.get(x['lambda'])
                if lam is None or len(lam.get('params', [])) != 1:
                    continue
                it_ty = (elems.get(str(d['args'][0])) or {}).get('ty') or 'auto'
                el_ty = (lam['params'][0].get('type') or 'auto').replace('const ', '').replace('&', '').strip()
                k += 1
                sfid = 'yakushima::__%s#%d' % (d['cq'].replace('std::', 'std_'), k)
                new[sfid] = _alg_function(sfid, d['cq'], x['lambda'], it_ty, el_ty, d.get('loc'),
                                          (elems.get(str(d['args'][2])) or {}).get('ty'))
                d['callee'] = sfid
                d['cq'] = sfid.split('#')[0]
                d['lowered'] = 'algorithm'
    functions_raw.update(new)
    return k


def _alg_function(fid, alg, lam_fid, it_ty, el_ty, loc, clos_ty):
    loc = loc or ''
    P = [{'id': 'first@' + fid, 'name': 'first', 'type': it_ty}, {'id': 'last@' + fid, 'name': 'last', 'type': it_ty},
         {'id': 'pred@' + fid, 'name': 'pred', 'type': clos_ty or 'closure'}]
    B, E = '__begin@' + fid, '__end@' + fid

    def ref(i, name, dk, ty):
        return {'k': 'DeclRefExpr', 'dk': dk, 'id': i, 'name': name, 'ty': ty, 'loc': loc}

    def cast(c, ty):
        return {'k': 'ImplicitCastExpr', 'ck': 'LValueToRValue', 'ch': [c], 'ty': ty, 'loc': loc}
    el = {
        1: ref(P[0]['id'], 'first', 'parm', it_ty),
        2: {'k': 'DeclStmt', 'loc': loc, 'vars': [{'id': B, 'name': '__begin', 'type': it_ty, 'init': 1}]},
        3: ref(P[1]['id'], 'last', 'parm', it_ty),
        4: {'k': 'DeclStmt', 'loc': loc, 'vars': [{'id': E, 'name': '__end', 'type': it_ty + ' const', 'init': 3}]},
        5: ref(B, '__begin', 'var', it_ty), 6: cast(5, it_ty), 7: ref(E, '__end', 'var', it_ty), 8: cast(7, it_ty),
        9: {'k': 'BinaryOperator', 'op': '!=', 'ty': 'bool', 'ch': [6, 8], 'loc': loc},
        10: ref(B, '__begin', 'var', it_ty), 11: cast(10, it_ty),
        12: {'k': 'UnaryOperator', 'op': '*', 'postfix': False, 'ty': el_ty, 'ch': [11], 'loc': loc},
        13: ref(P[2]['id'], 'pred', 'parm', clos_ty or 'closure'),
        14: {'k': 'CXXOperatorCallExpr', 'callee': lam_fid, 'cn': 'operator()', 'cq': 'operator()', 'lambda_call': True,
             'args': [13, 12], 'ch': [13, 12], 'ty': 'void' if alg == 'std::for_each' else 'bool', 'loc': loc},
        15: ref(B, '__begin', 'var', it_ty),
        16: {'k': 'UnaryOperator', 'op': '++', 'postfix': False, 'ty': it_ty, 'ch': [15], 'loc': loc},
        17: {'k': 'CXXBoolLiteralExpr', 'val': '1', 'ty': 'bool', 'loc': loc},
        18: {'k': 'ReturnStmt', 'ch': [17], 'loc': loc},
        19: {'k': 'CXXBoolLiteralExpr', 'val': '0', 'ty': 'bool', 'loc': loc},
        20: {'k': 'ReturnStmt', 'ch': [19], 'loc': loc},
        21: {'k': 'ReturnStmt', 'ch': [], 'loc': loc},
    }
    # blocks: 8 entry, 7 set-up, 6 head, 5 body, 4 inc, 3 return true, 2 return false, 1 return (void), 0 exit
    name = {'true': 3, 'false': 2, 'inc': 4, 'found': 3, 'last': 2}
    if alg == 'std::find_if':
        # the iterator of the first element the predicate accepts, else `last`
        el[17] = ref(B, '__begin', 'var', it_ty)
        el[19] = ref(P[1]['id'], 'last', 'parm', it_ty)
    if ALGS[alg] is None:
        body = {'elems': [10, 11, 12, 13, 14], 'succ': [4]}
        exhausted = 1
        ret = 'void'
    else:
        t, f_, ex = ALGS[alg]
        body = {'elems': [10, 11, 12, 13, 14], 'succ': [name[t], name[f_]], 'term': {'k': 'IfStmt', 'cond': 14, 'loc': loc}}
        exhausted = name[ex]
        ret = it_ty if alg == 'std::find_if' else 'bool'
    blocks = {
        '8': {'elems': [], 'succ': [7]},
        '7': {'elems': [1, 2, 3, 4], 'succ': [6]},
        '6': {'elems': [5, 6, 7, 8, 9], 'succ': [5, exhausted], 'term': {'k': 'CXXForRangeStmt', 'cond': 9, 'loc': loc}},
        '5': body,
        '4': {'elems': [15, 16], 'succ': [6]},
        '3': {'elems': [17, 18], 'succ': [0]},
        '2': {'elems': [19, 20], 'succ': [0]},
        '1': {'elems': [21], 'succ': [0]},
        '0': {'elems': [], 'succ': []},
    }
    return {'qname': fid.split('#')[0], 'name': fid.split('::')[-1], 'params': P, 'loc': loc, 'ret': ret,
            'elems': {str(i): n for i, n in el.items()}, 'blocks': blocks, 'entry': 8, 'exit': 0, 'synthetic': True}


def _ref_path(elems, n, depth=0):
    """inline copy of the object a reference local is bound to, when that object has one identity for the whole function:
    a member chain of this / of a parameter / of an object local, or std::get<k>() of such a chain; else None"""
    if n is None or depth > 8:
        return None
    k = n.get('k')
    if k in ('ImplicitCastExpr', 'ParenExpr', 'MaterializeTemporaryExpr', 'ExprWithCleanups'):
        kids = n.get('ch') or n.get('args') or []
        if len(kids) != 1:
            return None
        c = kids[0]
        return _ref_path(elems, elems.get(str(c)) if isinstance(c, int) else c, depth + 1)
    if k == 'CallExpr' and n.get('cq') == 'std::get' and len(n.get('args') or []) == 1:
        c = n['args'][0]
        base = _ref_path(elems, elems.get(str(c)) if isinstance(c, int) else c, depth + 1)
        if base is None:
            return None
        m = {kk: vv for kk, vv in n.items() if kk not in ('ch', 'args')}
        m['args'] = [base]
        m['ch'] = [base]
        return m
    pth = _object_path(elems, n, depth)
    if pth is None:
        return None
    for d in _all_dicts(pth):
        if d.get('k') == 'UnaryOperator':
            return None           # *p: p may point elsewhere later
        if d.get('k') == 'DeclRefExpr' and '*' in (d.get('ty') or ''):
            return None
    return pth


def desugar_ref_locals(functions_raw, known=None):
    """`T& x = OBJ;` with OBJ an object that has one identity for the whole function (a member chain, std::get<k> of one):
    a reference cannot be re-seated, so x *is* OBJ - every use of x is rewritten into OBJ, the form the rules know.
    Reference locals of the pinned tree (baseline) are left as they are."""
    known = known or {}
    n_rw = 0
    for fid, r in functions_raw.items():
        elems = r.get('elems', {})
        if not elems:
            continue
        kn = set(known.get(r.get('qname'), []))
        table = {}
        for n in list(elems.values()):
            if n.get('k') != 'DeclStmt':
                continue
            for v in n.get('vars', []):
                ty = v.get('type') or ''
                if v.get('bindings') or 'init' not in v or not ty.rstrip().endswith('&') or ty.rstrip().endswith('&&'):
                    continue
                if (v.get('name') or '').startswith('__') or v.get('name') in kn or not v.get('id'):
                    continue
                ini = v['init']
                ini = elems.get(str(ini)) if isinstance(ini, int) else ini
                path = _ref_path(elems, ini)
                if path is not None:
                    table[v['id']] = path
        if not table:
            continue
        for n in elems.values():
            for d in _all_dicts(n):
                if d.get('k') == 'DeclRefExpr' and d.get('dk') == 'var' and d.get('id') in table:
                    keep = {'loc': d.get('loc')}
                    pcopy = copy.deepcopy(table[d['id']])
                    d.clear()
                    d.update(pcopy)
                    d.update({k_: v_ for k_, v_ in keep.items() if v_ is not None})
                    n_rw += 1
    return n_rw


def apply(raw, lambdas=False):
    """Transform the raw fact base in place; returns the log."""
    if not os.path.exists(BASELINE):
        return []
    with open(BASELINE) as fh:
        base = json.load(fh)
    baseline = set(base['functions'])
    lower_switches(raw['functions'])
    lower_algorithms(raw['functions'])
    inl = Inliner(raw['functions'], baseline)
    inl.splice_all(inl.new_named())
    desugar_bindings(raw['functions'], base.get('decompositions', {}))
    if 'ref_locals' in base:
        desugar_ref_locals(raw['functions'], base['ref_locals'])
    if lambdas:
        # closures: those of the pinned tree are known to the rules as closures (by defining function and variable
        # name; a defining function with as many in-place closures as on the pinned tree has only been renamed in);
        # every other closure that is only called in place is new code of its defining function
        known = base.get('closures', {})
        cur = closures_called_in_place(raw['functions'])
        per_fn = {}
        for lf, (q, vn) in cur.items():
            per_fn.setdefault(q, []).append((lf, vn))
        targets = set()
        for q, lst in per_fn.items():
            kn = known.get(q, [])
            if len({vn for _, vn in lst}) <= len(kn):
                continue
            targets |= {lf for lf, vn in lst if vn not in kn}
        inl.splice_all(targets)
    return inl.log
